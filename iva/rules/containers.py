"""E6 - abstract-heap execution of the relinking code, shared by C06 and C19."""
from __future__ import annotations

import ast
from typing import Dict, List, Optional, Tuple

from ..algebra import FALSE, NONE, RF, TRUE, Lit
from ..index import AnalysisError, ClassInfo, FuncInfo
from ..paths import Path, TupleVal, atomv, key_of
from ..report import Ctx
from . import common as C
from .common import attr, sub, var


def link_fields(ctx: Ctx) -> Tuple[str, str]:
    """Names of the left/right link fields, read off the public getters."""
    item = ctx.ix.cls('SearchDataItem')
    ex = ctx.explorer()
    b = var('it')
    out = []
    for g in ('GetLeft', 'GetRight'):
        m = item.lookup(g)
        if m is None:
            raise AnalysisError(f'SearchDataItem.{g} vanished')
        v = C.getter_value(ex, m, b)
        a = v.single_atom()
        if not (isinstance(a, tuple) and a[0] == 'attr' and a[1] == key_of(b)):
            raise AnalysisError(f'SearchDataItem.{g} is not a field getter')
        out.append(a[2])
    return out[0], out[1]


def trials_list_field(ctx: Ctx, sd: ClassInfo) -> str:
    """The attribute whose length GetCount reports."""
    gc = sd.lookup('GetCount')
    ex = ctx.explorer()
    for p in C.normal_paths(ex.explore(gc)):
        a = p.value.single_atom() if isinstance(p.value, RF) else None
        if isinstance(a, tuple) and a[0] == 'len':
            base = a[1]
            if isinstance(base, tuple) and base[0] == 'attr':
                return base[2]
    # GetCount may report a counter kept next to the list: accepted when the counter is incremented exactly
    # once with every append (checked here, reported under the append-once rule of the caller)
    got = _counter_and_list(ctx, sd, gc)
    if got is not None:
        return got
    raise AnalysisError('SearchData.GetCount is neither len(<list attribute>) nor a counter kept with the list')


def _counter_and_list(ctx: Ctx, sd: ClassInfo, gc: FuncInfo) -> Optional[str]:
    ex = ctx.explorer()
    counter = None
    for p in C.normal_paths(ex.explore(gc)):
        a = p.value.single_atom() if isinstance(p.value, RF) else None
        if isinstance(a, tuple) and len(a) == 4 and a[0] == 'attr' and a[1] == key_of(var(gc.param_names[0])):
            counter = a[2]
    if counter is None:
        return None
    insf = sd.lookup('InsertFirstDataItem')
    lists = set()
    for p in C.normal_paths(ex.explore(insf)):
        for e in p.events:
            if e.kind == 'call' and e.d['name'] == 'append' and isinstance(e.d.get('recv'), RF):
                ra = e.d['recv'].single_atom()
                if isinstance(ra, tuple) and len(ra) == 4 and ra[0] == 'attr' and ra[1] == key_of(var(insf.param_names[0])):
                    lists.add(ra[2])
    if len(lists) != 1:
        return None
    listF = next(iter(lists))
    # pairing: on every path of every method of the container, appends to the list = increments of the counter
    ok = True
    where = gc.loc()
    n = 0
    for c in [sd] + sd.all_subclasses():
        for m in c.methods.values():
            if m.kind != 'function' or m.name == '__init__' or not m.param_names:
                continue
            try:
                paths = C.normal_paths(ex.explore(m))
            except AnalysisError:
                continue
            selfk = key_of(var(m.param_names[0]))
            for p in paths:
                apps = [e for e in p.events if e.kind == 'call' and e.d['name'] == 'append' and
                        isinstance(e.d.get('recv'), RF) and C.strip_versions(key_of(e.d['recv'])) == ('attr', selfk, listF)]
                incs = [e for e in p.events if e.kind == 'store' and e.d['tkind'] == 'attr' and e.d['field'] == counter
                        and key_of(e.d['base']) == selfk]
                if apps or incs:
                    n += 1
                if len(apps) != len(incs):
                    ok, where = False, m.loc()
                for j, e in enumerate(incs):
                    v = e.d['value']
                    # the j-th increment on the path leaves entry value + j
                    base_ = (v - RF.const(j + 1)).single_atom() if isinstance(v, RF) else None
                    good = isinstance(base_, tuple) and len(base_) == 4 and base_[0] == 'attr' and base_[2] == counter
                    if not good:
                        ok, where = False, m.loc()
    init = sd.lookup('__init__')
    for p in C.normal_paths(ex.explore(init)):
        v = p.state.heap.get((key_of(var(init.param_names[0])), counter))
        if not (isinstance(v, RF) and v.const_value() == 0):
            ok, where = False, init.loc()
    ctx.check(ok and n > 0, 'R19.3', 'SearchData.GetCount', where,
              f'GetCount reports the counter {counter}, incremented exactly once with every append to {listF}',
              f'GetCount reports the counter {counter}, which is not incremented exactly once with every append to '
              f'{listF} (or does not start at 0): the reported count is not the number of inserted items',
              key='R19.3::SearchData.GetCount::counter-pairing')
    return listF


def check_insert(ctx: Ctx, rid: str, ins: FuncInfo, leftF: str, rightF: str, listF: str,
                 cls: Optional[ClassInfo] = None) -> Dict[str, object]:
    """Relink shape + append-once of one InsertDataItem implementation, run on a receiver of class cls (hooks the
    insertion calls on self dispatch through that class).  Returns per-path summaries (used for the sibling
    comparison)."""
    cls = cls or ins.cls
    find = cls.lookup('FindDataItemByOneDimensionalPoint')
    ex = ctx.explorer(opaque={find} if find is not None else (), self_cls=cls)
    ps = ins.param_names
    selfv, new, right = var(ps[0]), var(ps[1]), var(ps[2])
    summaries = []
    n = 0
    for p in C.normal_paths(ex.explore(ins)):
        n += 1
        hinted = C.has_lit(p.guards, Lit('isnone', key=key_of(right), pol=False))
        unhinted = C.has_lit(p.guards, Lit('isnone', key=key_of(right), pol=True))
        R = right
        loc = ins.loc()
        if unhinted:
            fc = [e for e in p.events if e.kind == 'call' and find is not None and find in e.d['callees']]
            if not ctx.check(bool(fc), rid, ins.short, loc, 'without a hint the covering interval is looked up',
                             'without a hint the insertion does not look up the covering interval',
                             key=f'{rid}::{ins.short}::lookup'):
                continue
            R = fc[0].d['result']
            a0 = fc[0].d['args'][0] if fc[0].d['args'] else None
            gx = C.getter_value(ex, ctx.ix.cls('SearchDataItem').lookup('GetX'), new)
            ctx.check(isinstance(a0, RF) and a0.equals(gx), rid, ins.short, ins.loc(fc[0].node),
                      'the lookup is made for the new item\'s own coordinate',
                      'the covering interval is looked up for a coordinate other than the new item\'s',
                      key=f'{rid}::{ins.short}::lookup-arg')
        elif not hinted:
            # no test at all on the hint: treat the parameter as the right neighbour
            pass
        L0 = atomv(('attr', key_of(R), leftF, 0))
        heap = p.state.heap
        want = {
            'new.left = L': (key_of(new), leftF, L0),
            'right.left = new': (key_of(R), leftF, new),
            'new.right = right': (key_of(new), rightF, R),
            'L.right = new': (key_of(L0), rightF, new),
        }
        for name, (bk, fld, exp) in want.items():
            got = heap.get((bk, fld))
            ok = got is not None and key_of(got) == key_of(exp)
            ctx.check(ok, rid, ins.short, loc,
                      f'relink ({"hint" if not unhinted else "lookup"} path): {name}',
                      f'relink is wrong on the {"hinted" if not unhinted else "lookup"} path: after insertion '
                      f'{name} does not hold (found {C.fmt(got) if got is not None else "unchanged"}); expected '
                      f'L <-> new <-> right', key=f'{rid}::{ins.short}::{name}')
        # nothing else is relinked
        extra = [(bk, fld) for (bk, fld) in heap if fld in (leftF, rightF) and
                 (bk, fld) not in {(w[0], w[1]) for w in want.values()}]
        ctx.check(not extra, rid, ins.short, loc, 'no other link is touched',
                  f'the insertion rewires links of other items: {[(C.fmt(C.rf_from_key(b)), f) for b, f in extra]}',
                  key=f'{rid}::{ins.short}::extra-links')
        # append once
        lst = attr(selfv, listF)
        apps = [e for e in p.events if e.kind == 'call' and e.d['name'] in ('append', 'insert', 'extend') and
                e.d.get('recv') is not None and key_of(e.d['recv']) == key_of(lst)]
        ok = len(apps) == 1 and apps[0].d['name'] == 'append' and key_of(apps[0].d['args'][0]) == key_of(new)
        ctx.check(ok, rid, ins.short, ins.loc(apps[0].node) if apps else loc,
                  'the new item is appended exactly once to the list of all trials',
                  f'the list of all trials receives {len(apps)} additions on an insertion (expected exactly the new '
                  f'item once): GetCount and the last-item query go wrong', key=f'{rid}::{ins.short}::append-once')
        # queue insertions (Insert(key, item)) performed on this path
        qins = []
        for e in p.events:
            if e.kind == 'call' and e.d['name'] == 'Insert' and len(e.d['args']) >= 2:
                recv = e.d.get('recv')
                qa = recv.single_atom() if isinstance(recv, RF) else None
                qname = qa[2] if isinstance(qa, tuple) and qa[0] == 'attr' else '?'
                qins.append((qname, C.fmt(C.subst_val(e.d['args'][0], {key_of(R): key_of(right)})),
                             C.fmt(C.subst_val(e.d['args'][1], {key_of(R): key_of(right)}))))
        summaries.append({'hinted': not unhinted, 'queue': sorted(qins)})
        # completeness of the queueing: with a hint (the caller has just recomputed both characteristics) both the
        # new interval and its right neighbour must enter the global queue, keyed by their own globalR
        if not unhinted:
            want_q = {(C.fmt(attr(new, 'globalR')), C.fmt(new)), (C.fmt(attr(right, 'globalR')), C.fmt(right))}
            by_queue = {}
            for qn, k_, it_ in qins:
                by_queue.setdefault(qn, set()).add((k_, it_))
            okq = any(want_q <= v for v in by_queue.values())
            ctx.check(okq, rid, ins.short, loc,
                      'hinted insertion queues both the new interval and its right neighbour with their characteristics',
                      f'hinted insertion queues {sorted(qins)}; both (new.globalR, new) and (right.globalR, right) must '
                      f'enter the characteristics queue, otherwise an interval with maximal characteristic is never '
                      f'selected until the next refill', key=f'{rid}::{ins.short}::queues-both')
    ctx.floor(rid, f'normal paths of {ins.short}', n, 2)
    return {'paths': summaries}


def check_insert_first(ctx: Ctx, rid: str, insf: FuncInfo, leftF: str, rightF: str, listF: str) -> Optional[str]:
    ex = ctx.explorer()
    ps = insf.param_names
    selfv, l, r = var(ps[0]), var(ps[1]), var(ps[2])
    first_field = None
    n = 0
    for p in C.normal_paths(ex.explore(insf)):
        n += 1
        heap = p.state.heap
        ok = key_of(heap.get((key_of(l), rightF), atomv(NONE))) == key_of(r) and \
            key_of(heap.get((key_of(r), leftF), atomv(NONE))) == key_of(l)
        ctx.check(ok, rid, insf.short, insf.loc(), 'the two end items are linked left <-> right',
                  'InsertFirstDataItem does not link the two end items to each other',
                  key=f'{rid}::{insf.short}::link')
        firsts = [fld for (bk, fld), v in heap.items() if bk == key_of(selfv) and key_of(v) == key_of(l)]
        ctx.check(len(firsts) == 1, rid, insf.short, insf.loc(), 'the left end is recorded as the first item',
                  'InsertFirstDataItem does not record the left end as the first item of the container',
                  key=f'{rid}::{insf.short}::first')
        if firsts:
            first_field = firsts[0]
        lst = attr(selfv, listF)
        apps = [e for e in p.events if e.kind == 'call' and e.d['name'] == 'append' and e.d.get('recv') is not None
                and key_of(e.d['recv']) == key_of(lst)]
        got = sorted(C.fmt(a.d['args'][0]) for a in apps)
        ctx.check(got == sorted([C.fmt(l), C.fmt(r)]), rid, insf.short, insf.loc(),
                  'both end items are appended exactly once',
                  f'InsertFirstDataItem appends {got} to the list of all trials (expected each end once)',
                  key=f'{rid}::{insf.short}::append')
    ctx.floor(rid, f'normal paths of {insf.short}', n, 1)
    return first_field


def selection_delta_stores(ctx: Ctx):
    """Interval lengths written already by the selection routine (same iteration, before the evaluation), expressed
    over the renewal routine's own parameters: {'old': [values], 'new': [values]}."""
    roles = C.roles_of(ctx)
    sel, rn = roles.selection, roles.renewal
    ex = ctx.explorer()
    item = ctx.ix.cls('SearchDataItem')
    gx = item.lookup('GetX')
    new_p, old_p = var(rn.param_names[1]), var(rn.param_names[2])
    pops = roles.sd_method('GetDataItemWithMaxGlobalR')
    out = {'old': [], 'new': []}
    for p in C.normal_paths(ex.explore(sel)):
        v = p.value
        pe = C.call_events(p, among=pops)
        if not isinstance(v, TupleVal) or len(v.items) != 2 or not pe:
            continue
        oldv = pe[0].d['result']
        newv = v.items[0]
        # the coordinate of the new item
        newx = None
        ne = C.new_event_of(p, newv)
        if ne is None:
            ce = C.call_event_of_result(p, newv)
            if ce is not None and ce.d['args']:
                ne = C.new_event_of(p, ce.d['args'][0])
        if ne is not None:
            a = ne.d['args']
            newx = a[1] if len(a) > 1 else ne.d['kwargs'].get('x')
        m = {key_of(oldv): key_of(old_p)}
        if newx is not None:
            m[key_of(newx)] = key_of(C.getter_value(ex, gx, new_p))
        for role, tgt in (('old', oldv), ('new', newv)):
            keys = {key_of(tgt)}
            if role == 'new' and ne is not None:
                keys.add(key_of(ne.d['result']))
            for s_ in p.stores():
                if s_.d['tkind'] == 'attr' and s_.d['field'] == 'delta' and s_.d['base'] is not None and \
                        s_.depth == 0 and key_of(s_.d['base']) in keys:
                    out[role].append((s_, C.subst_val(C.norm_self(ctx, sel, s_.d['value']), m)))
    return out
