"""C15 - benchmark evaluation is a pure function of the point (DESIGN.md section 3, C15)."""
from __future__ import annotations

import ast

from ..algebra import NONE, RF
from ..index import AnalysisError, FuncInfo
from ..paths import key_of
from ..report import Ctx
from . import common as C
from . import effects as E
from .common import attr, var

LEVEL_TEXT = ('Static decision by interprocedural write-effect analysis over the points-to relation: for each of the '
              'shipped Problem.Calculate implementations and everything they call, every mutation site targets only '
              'objects allocated inside that call tree or the .value of the supplied holder; the point is never '
              'written; every path on which a holder is supplied stores .value - a value that does not read the previous content of the holder - and returns that holder; constructors and generators write '
              'only objects they allocate themselves; module tables are never written; no nondeterminism source; problem '
              'code restores any process-wide interpreter / numpy state it changes.')
EXPLANATION = ('Purity is a property of the code shape: a function whose transitive write set is {holder.value} plus '
               'objects allocated during the call, and whose read set is never written by any other evaluation or by '
               'the construction of other instances, returns the same value for the same point whatever the history. '
               'The check enumerates all mutation sites reachable from each Calculate and each constructor.')
TRUSTED = ['CPython ast', 'iva engine (points-to relation, call graph)', 'numpy/math functions used are pure']


def shipped_calcs(ctx: Ctx):
    roles = C.roles_of(ctx)
    return [c for c in roles.problem_calcs if c.module.name.startswith('iOpt.problems')]


def _reestablished_scratch(ctx: Ctx, reach, o) -> bool:
    """o is a work buffer kept on the object for speed and carries nothing from one evaluation to the next: it is held
    by exactly one attribute, never returned, and every routine on the evaluation path that touches that attribute
    begins its use with a whole-array re-initialisation (`buf.fill(c)`, `buf[:] = c`, directly or through a local
    alias bound in the statement before) as an unconditional statement of its body."""
    pta = ctx.pta
    holders = [(k[1], k[2]) for k, v in pta.pts.items() if k[0] == 'F' and o in v and isinstance(k[2], str)
               and k[2] != '[]']
    if len({h[1] for h in holders}) != 1 or o.kind not in ('ndarray', 'list'):
        return False
    fld = holders[0][1]

    def mentions(st, name=None):
        for x in ast.walk(st):
            if name is None and isinstance(x, ast.Attribute) and (x.attr == fld or x.attr.endswith('__' + fld.lstrip('_'))
                                                                  and x.attr.endswith(fld)):
                return True
            if name is not None and isinstance(x, ast.Name) and x.id == name:
                return True
        return False

    def is_attr(e):
        return isinstance(e, ast.Attribute) and e.attr == fld

    def reinit(st, is_target) -> bool:
        if isinstance(st, ast.Expr) and isinstance(st.value, ast.Call) and isinstance(st.value.func, ast.Attribute) \
                and st.value.func.attr == 'fill' and is_target(st.value.func.value) and len(st.value.args) == 1 \
                and isinstance(st.value.args[0], ast.Constant):
            return True
        if isinstance(st, ast.Assign) and len(st.targets) == 1 and isinstance(st.targets[0], ast.Subscript) and \
                is_target(st.targets[0].value) and isinstance(st.value, ast.Constant):
            sl = st.targets[0].slice
            return (isinstance(sl, ast.Slice) and sl.lower is None and sl.upper is None and sl.step is None) or \
                (isinstance(sl, ast.Constant) and sl.value is Ellipsis)
        return False
    users = 0
    for q in sorted(reach):
        g = ctx.ix.funcs.get(q)
        if g is None or g.kind != 'function' or not isinstance(g.node, ast.FunctionDef) or g.name == '__init__':
            continue
        if not any(mentions(st) for st in g.node.body):
            continue
        users += 1
        if o in pta.ret(g):
            return False
        body = [st for st in g.node.body if not (isinstance(st, ast.Expr) and isinstance(st.value, ast.Constant))]
        first = next(i for i, st in enumerate(body) if mentions(st))
        st = body[first]
        if reinit(st, is_attr):
            continue
        if isinstance(st, ast.Assign) and len(st.targets) == 1 and isinstance(st.targets[0], ast.Name) and \
                is_attr(st.value):
            k = st.targets[0].id
            stores = [x for x in ast.walk(g.node) if isinstance(x, ast.Name) and x.id == k and
                      isinstance(x.ctx, ast.Store)]
            nxt = [s2 for s2 in body[first + 1:] if mentions(s2, k)]
            if len(stores) == 1 and nxt and reinit(nxt[0], lambda e: isinstance(e, ast.Name) and e.id == k):
                continue
        return False
    return users > 0


def r15_1_2(ctx: Ctx):
    rid = 'R15.1'
    ctx.rule(rid, 'write effects of Calculate, transitively: only .value of the supplied holder and objects '
                  'allocated inside the call')
    ctx.rule('R15.2', 'the point (and anything reachable from it) is never the target of a store, including inside '
                      'callees')
    pta = ctx.pta
    roles = C.roles_of(ctx)
    calcs = shipped_calcs(ctx)
    ctx.floor(rid, 'shipped Problem.Calculate implementations', len(calcs), 8)
    nsites = 0
    for calc in calcs:
        reach = pta.reachable([calc])
        ps = calc.param_names
        point_p, holder_p = ps[1], ps[2]
        point_objs = pta.reach_objs(pta.local(calc, point_p))
        n_here = 0
        for m in E.mutations_in(ctx, reach):
            if m.init_self:
                continue
            n_here += 1
            nsites += 1
            # the one permitted external effect
            if m.func is calc and m.kind == 'attr' and m.field == 'value' and isinstance(m.base_expr, ast.Name) \
                    and m.base_expr.id == holder_p:
                ctx.ok(rid, calc.short, 'stores the value into the supplied holder', m.loc())
                continue
            root = m.base_expr
            while isinstance(root, (ast.Attribute, ast.Subscript)):
                root = root.value
            if m.func is calc and isinstance(root, ast.Name) and root.id == point_p:
                ctx.fail('R15.2', calc.short, m.loc(), f'the evaluation writes through its point argument: {m.text()}',
                         key=ctx.key_for('R15.2', m.func, m.node))
                continue
            bad = [o for o in m.bases if not E.fresh_in(reach, o)]
            bad = [o for o in bad if not _reestablished_scratch(ctx, reach, o)]
            if not bad:
                continue
            hits_point = [o for o in bad if o in point_objs and o.kind in ('ndarray', 'list', 'inst', 'ext_inst',
                                                                           'param', 'field')]
            self_state = [o for o in bad if o.kind in ('inst', 'ext_inst') or o.scope == 'func']
            what = 'state that outlives the call'
            if any(o.is_singleton_scope for o in bad):
                what = 'a module/class-level object'
            elif self_state:
                what = 'instance state (memoisation / scratch kept on the object)'
            ctx.fail(rid, m.func.short, m.loc(),
                     f'{m.text()} (reached from {calc.short}) writes {what}: {bad[0].describe()}; the result of an '
                     f'evaluation then depends on earlier evaluations',
                     key=ctx.key_for(rid, m.func, m.node))
        ctx.ok(rid, calc.short, f'{n_here} mutation sites reachable from {calc.short}: all target the holder or '
                                f'call-local objects', calc.loc())
    ctx.floor(rid, 'mutation sites reachable from the Calculate implementations', nsites, 8)


def r15_3(ctx: Ctx):
    rid = 'R15.3'
    ctx.rule(rid, 'every path of Calculate stores .value on the supplied holder and returns that very holder')
    ex = ctx.explorer(unroll=1, max_paths=8000)
    n = 0
    for calc in shipped_calcs(ctx):
        holder = var(calc.param_names[2])
        hk = key_of(holder)
        for p in ex.explore(calc):
            if p.outcome == 'raise':
                continue
            if any(str(g) in (f'{calc.param_names[2]} is None', f'{calc.param_names[2]} == None') for g in p.guards):
                continue        # no holder was supplied on this path (an optional parameter): nothing to return it in
            n += 1
            # the value is a function of the point alone: what is stored does not read what the holder held before
            fin = p.state.heap.get((hk, 'value'))
            if isinstance(fin, RF):
                prior = [a for a in fin.atoms() if isinstance(a, tuple) and len(a) >= 3 and a[0] == 'attr' and
                         a[1] == hk and a[2] == 'value']
                ctx.check(not prior, rid, calc.short, calc.loc(),
                          'the stored value does not depend on what the holder held before',
                          f'{calc.short} computes the value from the previous content of the holder '
                          f'({C.fmt(fin)[:80]}): evaluating into a holder that was used before adds the new value to the '
                          f'old one, so the result depends on earlier evaluations', key=f'{rid}::{calc.short}::accumulates')
            sts = C.stores_to(p, base=holder, field='value', tkind='attr', depth=0)
            ctx.check(bool(sts), rid, calc.short, calc.loc(), 'the path stores the result in holder.value',
                      'a path of Calculate returns without storing a value in the supplied holder',
                      key=f'{rid}::{calc.short}::stores-value')
            ctx.check(key_of(p.value) == key_of(holder), rid, calc.short, calc.loc(),
                      'the supplied holder itself is returned',
                      f'Calculate returns {C.fmt(p.value)} instead of the supplied value holder',
                      key=f'{rid}::{calc.short}::returns-holder')
    ctx.floor(rid, 'normal paths of the Calculate implementations', n, 8)


def r15_4_5(ctx: Ctx):
    rid = 'R15.5'
    ctx.rule('R15.4', 'module-level and class-level tables read by the evaluations are never written anywhere in '
                      'iOpt/problems')
    ctx.rule(rid, 'constructors and generators mutate only objects allocated by the construction itself '
                  '(instance-owned or fresh)')
    pta = ctx.pta
    roles = C.roles_of(ctx)
    # R15.4
    n4 = 0
    for m in roles.mutations():
        if not m.func.module.name.startswith('iOpt.problems') or m.func.kind in ('module', 'classbody'):
            continue
        n4 += 1
        if m.func.name == 'Calculate' and m.kind == 'attr' and m.field == 'value' and \
                isinstance(m.base_expr, ast.Name) and len(m.func.param_names) > 2 and \
                m.base_expr.id == m.func.param_names[2]:
            continue        # the supplied holder: whose object that is, is the caller's business (C04/C12)
        for o in m.bases:
            if o.is_singleton_scope and o.kind in ('ndarray', 'list', 'dict', 'set', 'inst', 'ext', 'cls') and \
                    not m.init_self:
                if o.kind == 'cls' and m.kind not in ('attr', 'aug', 'del'):
                    continue
                ctx.fail('R15.4', m.func.short, m.loc(),
                         f'{m.text()} writes {o.describe()}: a table shared by all problem instances; evaluations of '
                         f'other instances change with the construction history',
                         key=ctx.key_for('R15.4', m.func, m.node))
    ctx.ok('R15.4', 'iOpt/problems', f'{n4} mutation sites in iOpt/problems: none targets a module/class-level object',
           'iOpt/problems/')
    ctx.floor('R15.4', 'mutation sites in iOpt/problems', n4, 100)
    tables = [o for o in pta._objs.values() if o.scope == 'module' and o.kind in ('ndarray', 'list') and
              'iOpt/problems' in o.site]
    ctx.floor('R15.4', 'module-level tables of iOpt/problems known to the analysis', len(tables), 8)
    # R15.5
    base = ctx.ix.cls('Problem')
    n5 = 0
    for c in base.all_subclasses():
        init = c.methods.get('__init__')
        if init is None or not c.module.name.startswith('iOpt.problems'):
            continue
        reach = pta.reachable([init])
        own_inst = {pta.inst_ext(c)} | {pta.inst_ext(s) for s in c.all_subclasses()}
        calcq = {roles.fq(x) for x in roles.problem_calcs}
        # evaluations made during construction must be given construction-local point and holder
        # (decided flow-sensitively on the constructor's own paths: the returned holder is stored back into the
        # slot it came from, which a flow-insensitive relation cannot tell apart)
        exc = ctx.explorer(unroll=1, max_paths=4000)
        for p in C.normal_paths(exc.explore(init)):
            for ev in p.events:
                if ev.kind != 'call' or not any(isinstance(x, FuncInfo) and roles.fq(x) in calcq
                                                for x in ev.d['callees']):
                    continue
                for a in ev.d['args']:
                    at = a.single_atom() if isinstance(a, RF) else None
                    ok = isinstance(at, tuple) and at and at[0] == 'fresh'
                    ctx.check(ok, rid, init.short, init.loc(ev.node),
                              'evaluation during construction uses a construction-local point and holder',
                              f'an evaluation during construction is given {C.fmt(a)}, which is not an object '
                              f'allocated by this construction', key=ctx.key_for(rid, init, ev.node))
        for m in E.mutations_in(ctx, reach):
            n5 += 1
            if roles.fq(m.func) in calcq and m.kind == 'attr' and m.field == 'value' and \
                    isinstance(m.base_expr, ast.Name) and m.base_expr.id == m.func.param_names[2]:
                continue        # the permitted effect of an evaluation: its target is checked at the call site above
            bad = []
            # a helper method of a base class, called only as self.helper(...) by methods whose own self is the
            # object under construction: its `self` is that object (the points-to relation merges all receivers)
            via_self = False
            hf = m.func
            if hf.cls is not None and c.is_subclass_of(hf.cls) and hf.param_names and \
                    isinstance(m.base_expr, ast.Name) and m.base_expr.id == hf.param_names[0] and hf is not init:
                sites = [k for k in pta.callers.get(roles.fq(hf), ()) if k[0] in reach or k[0] == roles.fq(init)]
                via_self = bool(sites)
                for (cq, nid) in sites:
                    cf = ctx.ix.funcs.get(cq.replace('@setter', ''))
                    nd = pta.call_nodes.get((cq, nid))
                    if cf is None or nd is None or not cf.param_names or not (
                            isinstance(nd.func, ast.Attribute) and isinstance(nd.func.value, ast.Name) and
                            nd.func.value.id == cf.param_names[0]):
                        via_self = False
            for o in m.bases:
                if E.fresh_in(reach, o) or o in own_inst:
                    continue
                if via_self and o.kind == 'ext_inst' and o.cls is not None and o.cls.is_subclass_of(hf.cls):
                    continue
                if o.kind in ('inst', 'ext_inst') and o.cls is not None and m.init_self:
                    continue
                # helper objects (GKLSFunction, GrishaginFunction, generators) held by the instance and built by it
                if o.kind == 'ext_inst' and o.cls is not None and \
                        o.cls.module.name.startswith('iOpt.problems') and not o.cls.is_subclass_of(base):
                    continue
                if o.kind in ('param',):
                    continue        # a value handed in by the caller of an internal helper: seen at its call site
                bad.append(o)
            if bad and E.store_is_path_local(ctx, m):
                bad = []        # decided on the paths of the function: the target is allocated by the same activation
            if bad:
                ctx.fail(rid, m.func.short, m.loc(),
                         f'{m.text()} (reached from {init.short}) mutates {bad[0].describe()}, which the '
                         f'construction did not allocate: constructing one instance changes data other instances '
                         f'read', key=ctx.key_for(rid, m.func, m.node))
        ctx.ok(rid, init.short, 'constructor and generator write only objects allocated by the construction',
               init.loc())
    ctx.floor(rid, 'mutation sites reachable from problem constructors', n5, 100)


def r15_6(ctx: Ctx):
    rid = 'R15.6'
    ctx.rule(rid, 'no nondeterminism source (random, time, id/hash, set iteration, environment) anywhere in '
                  'iOpt/problems')
    funcs = [q for q, f in ctx.ix.funcs.items() if f.module.name.startswith('iOpt.problems')]
    sites = E.nondet_sites(ctx, funcs)
    for f, node, d in sites:
        ctx.fail(rid, f.short, f.loc(node), f'{d} is used in benchmark code: evaluations are not reproducible',
                 key=f'{rid}::{f.module.relpath}::{f.short}::{d}')
    ctx.ok(rid, 'iOpt/problems', f'{len(funcs)} code units scanned: no nondeterminism source', 'iOpt/problems/')
    ctx.floor(rid, 'code units of iOpt/problems scanned', len(funcs), 60)
    # positive control: the same scan finds the wall-clock reads of the solve driver
    drv = C.roles_of(ctx).solve_driver
    roles = C.roles_of(ctx)
    ctl = E.nondet_sites(ctx, [roles.fq(drv)])
    if not ctl:
        # the timing may sit in a small helper object of the driver's module (a stopwatch context manager)
        ctl = E.nondet_sites(ctx, [q for q in roles.reach(drv)
                                   if q in ctx.ix.funcs and ctx.ix.funcs[q].module is drv.module])
    ctx.floor(rid, 'positive control: nondeterminism sources found in the solve driver (datetime.now)', len(ctl), 1)


def check(ctx: Ctx):
    if C.want(ctx, 'R15.1') or C.want(ctx, 'R15.2'):
        r15_1_2(ctx)
    if C.want(ctx, 'R15.3'):
        r15_3(ctx)
    if C.want(ctx, 'R15.4') or C.want(ctx, 'R15.5'):
        r15_4_5(ctx)
    if C.want(ctx, 'R15.6'):
        r15_6(ctx)
    if C.want(ctx, 'R15.7'):
        # the value at a point also depends on the floating-point error mode, the warnings filters, the global seeds:
        # problem code that changes one of them (constructing a GKLS that leaves numpy at 'raise') changes what every
        # other evaluation in the process returns (= R12.5 for the problem modules)
        from . import c12
        c12.r12_5(ctx, rid='R15.7', only_modules=['iOpt.problem'])
    ctx.assume('numpy/math functions called by the evaluations are pure and do not retain their arguments')
