"""C09 - the inverse image is consistent with the image - PARTIAL (DESIGN.md section 3, C09)."""
from __future__ import annotations

import ast
from fractions import Fraction

from ..algebra import NONE, RF, Lit
from ..index import AnalysisError, FuncInfo
from ..paths import Event, TupleVal, atomv, key_of
from ..report import Ctx
from . import common as C
from . import evo
from .common import attr, sub, var

LEVEL_TEXT = ('PARTIAL. Decided statically: for N=1 the forward and inverse queries normalise to the exact affine '
              'pair y = L + x(U-L), x = (y-L)/(U-L); the box->cube and cube->box transforms are algebraic inverses; '
              'both directions iterate the configured number of levels with the same radix, the inverse accumulating '
              'x += digit * B^-(j+1); GetInverseImage and GetPreimages have the same summaries; the inverse queries '
              'establish a float working array. The evolvent keeps no process-wide state; the inverse queries make no exact equality test on a transformed coordinate and reject no point by a range test on it; the bound arrays are private copies (both directions keep answering for the configured box). NOT decided: that the number rule mirrors the node rule for N >= 2.')
EXPLANATION = ('Path summaries of the two queries with N fixed to 1 are compared with the affine formulas by '
               'cross-multiplication; the composition of the two coordinate transforms is reduced to the identity; '
               'the per-level accumulation of the inverse descent is normalised for two levels; sibling agreement is '
               'decided on the event summaries.')
TRUSTED = ['CPython ast', 'iva engine', 'np.array(y)[i] == y[i]']
LEVEL_NOTE = 'Mirror relation of __CalculateNumbr vs __CalculateNode (N >= 2) is not covered (see DESIGN.md, C09).'


def copy_elems_map(p) -> dict:
    """Elements of a fresh copy equal the elements of its source: sub(copy(y), i) -> sub(y, i)."""
    m = {}
    for ev in p.events:
        if ev.kind == 'call' and ev.d.get('ext') and ev.d.get('callee') in ('numpy.array', 'numpy.copy', 'numpy.asarray') \
                and ev.d['args']:
            m[key_of(ev.d['result'])] = key_of(ev.d['args'][0])
    return m


def r09_1(ctx: Ctx):
    rid = 'R09.1'
    ctx.rule(rid, 'N = 1: GetImage(x) = L + x(U-L) and GetInverseImage/GetPreimages(y) = (y-L)/(U-L)')
    e = evo.evo_of(ctx)
    ex = e.explorer(unroll=1)
    zero = RF.const(0)
    for fn in (e.get_image,):
        selfv = var(fn.param_names[0])
        x = var(fn.param_names[1])
        heap = {(key_of(selfv), e.dim_field): RF.const(1)}
        U = sub(attr(selfv, e.backing_field('upperBoundOfFloatVariables')), zero)
        L = sub(attr(selfv, e.backing_field('lowerBoundOfFloatVariables')), zero)
        n = 0
        for p in C.normal_paths(ex.explore(fn, heap=heap)):
            n += 1
            # the returned array: a fresh array filled element by element on the path, or a value copy of the
            # working array
            v = p.state.heap.get((key_of(p.value), ('[]', key_of(zero)))) if p.value is not None else None
            src = p.value
            if v is None:
                src = C.through_value_copies(p, p.value)
                if src is p.value:
                    ce = C.call_event_of_result(p, p.value)
                    src = ce.d['args'][0] if ce is not None and ce.d['args'] else p.value
                v = p.state.heap.get((key_of(src), ('[]', key_of(zero))))
            sa = src.single_atom() if isinstance(src, RF) else None
            if isinstance(sa, tuple) and len(sa) == 4 and sa[0] == 'attr' and sa[1] == key_of(selfv):
                # whole-vector (vectorised) stores into the working array are read element-wise
                v2 = evo.scratch_element(p, selfv, sa[2], 0, nval=RF.const(1))
                if isinstance(v2, RF):
                    v = v2
            exp = L + x * (U - L)
            nf = len(ctx.findings)
            v = evo.expand_coefficients(ctx, rid, fn, v, selfv)
            if len(ctx.findings) > nf:
                continue
            if v is None:
                raise AnalysisError(f'{rid}: element 0 of the array returned by {fn.short} ({C.fmt(p.value)}) cannot be '
                                    f'read from the path; the N=1 image is not decided for this form of the return')
            ok = isinstance(v, RF) and C.strip_rf(v).equals(C.strip_rf(exp))
            if not ok:
                evo.refuse_maintained_coefficients(ctx, rid, fn, v, selfv)
            ctx.check(ok, rid, fn.short, fn.loc(), 'N=1 image is L + x(U-L)',
                      f'for N=1 the image of x is {C.fmt(v)}; expected {C.fmt(exp)}', key=f'{rid}::{fn.short}::affine')
        ctx.floor(rid, f'N=1 paths of {fn.short}', n, 1)
    for fn in (e.get_inverse, e.get_pre):
        selfv = var(fn.param_names[0])
        y = var(fn.param_names[1])
        heap = {(key_of(selfv), e.dim_field): RF.const(1)}
        U = sub(attr(selfv, e.backing_field('upperBoundOfFloatVariables')), zero)
        L = sub(attr(selfv, e.backing_field('lowerBoundOfFloatVariables')), zero)
        n = 0
        for p in C.normal_paths(ex.explore(fn, heap=heap)):
            n += 1
            m = copy_elems_map(p)
            v = p.value
            if isinstance(v, RF):
                # an element of the working array read after a whole-vector store: element-wise semantics
                from .c17 import scratch_attrs
                for sname in sorted(scratch_attrs(ctx)):
                    el, bases = evo.scratch_element(p, selfv, sname, 0, nval=RF.const(1), with_bases=True)
                    if not isinstance(el, RF):
                        continue
                    for a in list(v.atoms()):
                        if isinstance(a, tuple) and len(a) == 4 and a[0] == 'sub' and a[2] == key_of(zero) and \
                                C.strip_versions(a[1]) in bases and not C.mentions(el, a):
                            v = evo.subst_top(v, {a: el})
            if isinstance(v, RF):
                v = C.strip_rf(C.subst_rf(C.strip_rf(v), {C.strip_versions(k): C.strip_versions(t) for k, t in m.items()}))
            exp = (sub(y, zero) - L) / (U - L)
            nf = len(ctx.findings)
            v = evo.expand_coefficients(ctx, rid, fn, v, selfv)
            if len(ctx.findings) > nf:
                continue
            ok = isinstance(v, RF) and C.strip_rf(v).equals(C.strip_rf(exp))
            if not ok:
                evo.refuse_maintained_coefficients(ctx, rid, fn, v, selfv)
            ctx.check(ok, rid, fn.short, fn.loc(), 'N=1 inverse image is (y-L)/(U-L)',
                      f'for N=1 the inverse image of y is {C.fmt(v)}; expected {C.fmt(exp)}',
                      key=f'{rid}::{fn.short}::affine')
        ctx.floor(rid, f'N=1 paths of {fn.short}', n, 1)


def r09_2(ctx: Ctx):
    rid = 'R09.2'
    ctx.rule(rid, 'box->cube after cube->box is the identity on every coordinate')
    out = evo.rule_affine(ctx, rid)
    if 'P2D' in out and 'D2P' in out:
        (gp, yp, ip), (gd, yd, idd) = out['P2D'], out['D2P']
        ren = {}
        if ip is not None and idd is not None and key_of(idd) != key_of(ip):
            ren = {C.strip_versions(key_of(idd)): C.strip_versions(key_of(ip))}
        gd2 = C.subst_rf(gd, ren) if ren else gd
        ydk = C.subst_key(key_of(yd), ren) if ren else key_of(yd)
        # D2P reads its coordinate from wherever it keeps it; P2D's result is what it is applied to
        comp = C.subst_rf(gd2, {ydk: key_of(gp)})
        ok = comp.equals(yp)
        ctx.check(ok, rid, 'Evolvent transforms', evo.evo_of(ctx).p2d.loc(), 'D2P(P2D(y)) = y algebraically',
                  f'D2P(P2D(y)) normalises to {C.fmt(comp)}, not to y: the inverse query does not undo the forward '
                  f'coordinate map', key=f'{rid}::composition')


def r09_3(ctx: Ctx):
    rid = 'R09.3'
    ctx.rule(rid, 'both directions iterate range(density) levels with the same radix; the inverse accumulates '
                  'x = sum_j digit_j * B^-(j+1) starting from 0')
    e = evo.evo_of(ctx)
    try:
        dens = e.density_field()
    except AnalysisError as err:
        if getattr(err, 'undecided', False):
            raise
        lp0 = e.level_loop(e.forward)
        ctx.fail(rid, e.forward.short, e.forward.loc(lp0),
                 f'the level loop of the forward descent iterates {ast.unparse(lp0.iter)}, which is not an attribute '
                 f'of the evolvent: the two directions are not tied to one level count, so the inverse image need '
                 f'not be the preimage of the image ({err})', key=f'{rid}::{e.forward.short}::level-loop')
        return
    e.report_level_table(rid)
    Bf = e.radix_field()
    fn = e.inverse
    lp = e.level_loop(fn)
    it = lp.iter
    ok = e.loop_bound_attr(fn, lp) == dens
    ctx.check(ok, rid, fn.short, fn.loc(lp), 'the inverse descent iterates the same number of levels',
              f'the inverse descent iterates {ast.unparse(it)}, the forward descent range(self.{dens})',
              key=f'{rid}::{fn.short}::levels')
    selfv = var(fn.param_names[0])
    B = attr(selfv, Bf)
    ex = e.explorer(unroll=2)
    heap = {(key_of(selfv), e.dim_field): RF.const(0)}
    n = 0
    for p in C.normal_paths(ex.explore(fn, heap=heap)):
        calls = [ev for ev in p.events if ev.kind == 'call' and e.numbr_fn in ev.d['callees']]
        exp = RF.const(0)
        scale = RF.const(1)
        for c in calls:
            digit = atomv(('sub', key_of(c.d['result']), RF.const(0).key(), 0))
            scale = scale / B
            exp = exp + scale * digit
        n += 1
        v = p.value
        okv = isinstance(v, RF) and C.strip_rf(v).equals(C.strip_rf(exp))
        ctx.check(okv, rid, fn.short, fn.loc(), f'{len(calls)} level(s): x = sum digit_j * B^-(j+1)',
                  f'after {len(calls)} level(s) the inverse descent returns {C.fmt(v)}; expected {C.fmt(exp)} (digits '
                  f'weighted by B^-(j+1) with the radix of the forward descent)', key=f'{rid}::{fn.short}::accumulation')
    ctx.floor(rid, 'paths of the inverse descent', n, 3)


def summarise(p, fn) -> list:
    out = []
    for ev in p.events:
        if ev.kind == 'store' and ev.d['tkind'] != 'name':
            out.append(('store', C.strip_versions(ev.d['tdesc']), C.fmt(ev.d['value'])))
        elif ev.kind == 'call' and not ev.d.get('inlined'):
            out.append(('call', ev.d['name'], tuple(C.fmt(a) for a in ev.d['args']),
                        tuple(sorted((k, C.fmt(v)) for k, v in ev.d['kwargs'].items()))))
        elif ev.kind == 'call':
            out.append(('enter', ev.d['name']))
    out.append(('result', p.outcome, C.fmt(p.value) if p.value is not None else ''))
    return out


def r09_4(ctx: Ctx):
    rid = 'R09.4'
    ctx.rule(rid, 'sibling agreement: GetInverseImage and GetPreimages have the same path summaries')
    e = evo.evo_of(ctx)
    ex = ctx.explorer(inline=lambda f, st: False, inline_private=False)
    a, b = e.get_inverse, e.get_pre
    pa = [summarise(p, a) for p in ex.explore(a, args={a.param_names[1]: var('y')})]
    pb = [summarise(p, b) for p in ex.explore(b, args={b.param_names[1]: var('y')})]
    ok = sorted(map(repr, pa)) == sorted(map(repr, pb))
    ctx.check(ok, rid, f'{a.name} / {b.name}', b.loc(), 'both inverse queries perform the same steps',
              f'{a.name} and {b.name} differ: {[x for x in map(repr, pb) if x not in set(map(repr, pa))][:1]} vs '
              f'{[x for x in map(repr, pa) if x not in set(map(repr, pb))][:1]}', key=f'{rid}::siblings')


def r09_6(ctx: Ctx):
    """Exact equality on a transformed coordinate.  The inverse query first maps the point into the unit cube,
    (y - (U+L)/2)/(U-L): a boundary point comes out as 0.5 only up to rounding (0.5000000000000001 for about one box
    in six).  A branch `p == 0.5` (or != / any equality with a literal) on such a value takes the special case for
    some boxes and misses it for others; the inverse image of a face point then lands in the wrong cell."""
    rid = 'R09.6'
    ctx.rule(rid, 'no exact equality test (==, !=) of a value derived from the transformed point with a numeric '
                  'constant in the code of the inverse queries (expected count: 0; the forward query tests its own '
                  'argument x == 1.0, which is not transformed)')
    e = evo.evo_of(ctx)
    scratch = set(e._scratch_attrs()) if e.opt('fwd', 'descent') is not None else {'yValues'}
    roots = [e.get_inverse, e.get_pre]
    funcs = []
    for r in roots:
        for f in [r] + e._closure(r):
            if f not in funcs and f.kind == 'function':
                funcs.append(f)
    n = 0
    for f in funcs:
        selfn = f.param_names[0] if f.param_names and f.cls is not None else None
        tainted = set(f.param_names[1:]) if f in roots else set()

        def derived(x) -> bool:
            if isinstance(x, ast.Attribute) and isinstance(x.value, ast.Name) and x.value.id == selfn and \
                    x.attr in scratch:
                return True
            if isinstance(x, ast.Name):
                return x.id in tainted
            if isinstance(x, ast.Call):
                nm = x.func.id if isinstance(x.func, ast.Name) else getattr(x.func, 'attr', '')
                if nm in ('int', 'floor', 'trunc', 'round', 'len', 'range'):
                    return False
            return any(derived(c) for c in ast.iter_child_nodes(x) if isinstance(c, ast.expr))
        changed = True
        while changed:
            changed = False
            for st in ast.walk(f.node):
                if isinstance(st, ast.Assign) and len(st.targets) == 1 and isinstance(st.targets[0], ast.Name) and \
                        st.targets[0].id not in tainted and derived(st.value):
                    tainted.add(st.targets[0].id)
                    changed = True
        for c in ast.walk(f.node):
            if not (isinstance(c, ast.Compare) and len(c.ops) == 1 and isinstance(c.ops[0], (ast.Eq, ast.NotEq))):
                continue
            l, r = c.left, c.comparators[0]
            n += 1
            for a, b in ((l, r), (r, l)):
                num = isinstance(b, ast.Constant) and isinstance(b.value, (int, float)) and \
                    not isinstance(b.value, bool)
                bare_param = isinstance(a, ast.Name) and f in roots and a.id in f.param_names
                if num and derived(a) and not bare_param:
                    ctx.fail(rid, f.short, f.loc(c),
                             f'`{ast.unparse(c)}` tests a value derived from the transformed point for exact equality '
                             f'with {b.value!r}: the transformed coordinate of a boundary point equals the constant '
                             f'only up to rounding, so the special case is taken for some boxes and missed for others '
                             f'and the inverse image of such a point is the left end of a wrong cell',
                             key=f'{rid}::{f.short}::{ast.unparse(c)[:40]}')
    if not any(x.rule == rid for x in ctx.findings):
        ctx.ok(rid, 'inverse queries', f'{n} equality comparisons in {len(funcs)} functions of the inverse queries: none '
                                       f'on a value derived from the transformed point', e.cls.module.relpath)
    ctx.floor(rid, 'functions of the inverse queries scanned', len(funcs), 3)
    # R09.7: a range test on the transformed coordinate that rejects the point.  |p| > 0.5 is true for in-box points on
    # a face of about one box in three (the normalisation overshoots by an ulp): the query raises for a point of the
    # box.  Validation belongs on the raw point against the raw bounds.
    rid7 = 'R09.7'
    ctx.rule(rid7, 'no raise / assert in the inverse queries is guarded by an ordering test (<, <=, >, >=) of a value '
                   'derived from the transformed point against a numeric constant (expected count: 0)')
    d2p = e.opt('inv', 'transform')
    n7 = 0
    for f in funcs:
        selfn = f.param_names[0] if f.param_names and f.cls is not None else None
        tainted = set(f.param_names[1:]) if f in roots else set()
        first_transform = None
        if d2p is not None and f is not d2p:
            for c in ast.walk(f.node):
                if isinstance(c, ast.Call) and d2p in ctx.pta.internal_callees(f, c):
                    first_transform = min(first_transform or c.lineno, c.lineno)

        def derived7(x) -> bool:
            if isinstance(x, ast.Attribute) and isinstance(x.value, ast.Name) and x.value.id == selfn and \
                    x.attr in scratch:
                return True
            if isinstance(x, ast.Name):
                return x.id in tainted
            return any(derived7(c) for c in ast.iter_child_nodes(x) if isinstance(c, ast.expr))
        changed = True
        while changed:
            changed = False
            for st in ast.walk(f.node):
                if isinstance(st, ast.Assign) and len(st.targets) == 1 and isinstance(st.targets[0], ast.Name) and \
                        st.targets[0].id not in tainted and derived7(st.value):
                    tainted.add(st.targets[0].id)
                    changed = True

        def range_tests(test):
            for c in ast.walk(test):
                if isinstance(c, ast.Compare) and len(c.ops) == 1 and \
                        isinstance(c.ops[0], (ast.Lt, ast.LtE, ast.Gt, ast.GtE)):
                    l, r = c.left, c.comparators[0]
                    for a, b in ((l, r), (r, l)):
                        num = isinstance(b, ast.Constant) and isinstance(b.value, (int, float)) and \
                            not isinstance(b.value, bool)
                        neg = isinstance(b, ast.UnaryOp) and isinstance(b.operand, ast.Constant)
                        if (num or neg) and derived7(a):
                            yield c
        for st in ast.walk(f.node):
            guard = None
            if isinstance(st, ast.If) and any(isinstance(x, ast.Raise) for b in st.body + st.orelse
                                               for x in ast.walk(b)):
                guard = st.test
            elif isinstance(st, ast.Assert):
                guard = st.test
            if guard is None:
                continue
            n7 += 1
            if f in roots and first_transform is None and d2p is not None:
                continue            # the raw point, nothing transformed yet in this function
            if first_transform is not None and st.lineno < first_transform:
                continue            # before the transformation: a test of the raw point
            for c in range_tests(guard):
                ctx.fail(rid7, f.short, f.loc(st),
                         f'`{ast.unparse(c)}` rejects the point by a range test on the transformed coordinate: the '
                         f'normalisation (y - (U+L)/2)/(U-L) of a point on a face of the box overshoots 0.5 by one ulp '
                         f'for about one box in three, so the inverse query raises for a point that is inside the box',
                         key=f'{rid7}::{f.short}::{ast.unparse(c)[:40]}')
    if not any(x.rule == rid7 for x in ctx.findings):
        ctx.ok(rid7, 'inverse queries', f'{n7} guarded raise / assert statements in {len(funcs)} functions of the '
                                        f'inverse queries: none tests the transformed point against a constant',
               e.cls.module.relpath)


def check(ctx: Ctx):
    if C.want(ctx, 'R09.6'):
        r09_6(ctx)
    if C.want(ctx, 'R09.5'):
        evo.rule_no_shared_state(ctx, 'R09.5')
    if C.want(ctx, 'R09.8'):
        ctx.rule('R09.8', 'image and inverse image answer for the same box as long as nobody re-configures the evolvent: '
                          'the bound arrays are private copies taken by the constructor / SetBounds (= R06.11), re-run '
                          'here')
        evo.rule_box_copied(ctx, 'R09.8')
    if C.want(ctx, 'R09.1'):
        r09_1(ctx)
    if C.want(ctx, 'R09.2'):
        r09_2(ctx)
    if C.want(ctx, 'R09.3'):
        r09_3(ctx)
    if C.want(ctx, 'R09.4'):
        r09_4(ctx)
    if C.want(ctx, 'R09.5'):
        ctx.rule('R09.5', 'the inverse queries establish the working array with a pinned float dtype (= R17.3)')
        from . import c17
        c17.r17_3(ctx)
    ctx.assume('NOT DECIDED: __CalculateNumbr mirrors __CalculateNode for N >= 2')
