"""C19 - search-data containers act as an ordered set plus max-priority queues (DESIGN.md section 3, C19)."""
from __future__ import annotations

import ast

from ..algebra import FALSE, NONE, RF, TRUE, Lit
from ..index import AnalysisError, FuncInfo
from ..paths import TupleVal, atomv, key_of
from ..report import Ctx
from . import common as C
from . import containers as K
from .c02 import depq_signature
from .common import attr, sub, var

LEVEL_TEXT = ('Static decision of the structural necessary conditions of the container contract: relink shape of '
              'both InsertDataItem implementations on a symbolic heap and their agreement; covering lookup predicate; '
              'append-once/count; iterator protocol; queue wiring (key/item order, max end, key = current '
              'characteristic; the wrapper drops an entry only against the queue\'s current lowest priority); lazy '
              'invalidation loop; refill completeness and refill-before-pop of an empty queue; forwarding of Clear / IsEmpty; maxlen propagation; constructor parameters of a derived container forwarded to the base under their own names.')
EXPLANATION = ('Path summaries (accessors and queue wrappers inlined, loops unrolled <= 2) of every public container '
               'operation are compared with the expected heap shape, guard literals and call arguments. The '
               'ordering and eviction behaviour of depq.DEPQ itself is the trusted base.')
TRUSTED = ['CPython ast', 'iva engine', 'depq.DEPQ documented ordering/eviction contract']


def queue_fields(ctx: Ctx):
    """(global queue attribute, local queue attribute): the CharacteristicsQueue built by SearchData.__init__ and
    the one added by SearchDataDualQueue.__init__."""
    out = []
    for cname in ('SearchData', 'SearchDataDualQueue'):
        c = ctx.ix.cls(cname)
        init = c.methods.get('__init__')
        if init is None:
            raise AnalysisError(f'{cname}.__init__ vanished')
        flds = []
        for p in C.normal_paths(ctx.explorer(inline_ctor=False).explore(init)):
            qs = {key_of(ne.d['result']) for ne in C.new_events(p, 'CharacteristicsQueue')}
            for s_ in p.stores():
                if s_.d['tkind'] == 'attr' and key_of(s_.d['value']) in qs and s_.depth == 0:
                    flds.append(s_.d['field'])
        if len(set(flds)) != 1:
            raise AnalysisError(f'cannot identify the queue attribute built by {cname}.__init__: {flds}')
        out.append(flds[0])
    return out[0], out[1]


def r19_1(ctx: Ctx):
    rid = 'R19.1'
    ctx.rule(rid, 'relink shape for SearchData.InsertDataItem and the dual-queue override; the override agrees with '
                  'the base on links, append and the global-queue part')
    sd, dual = ctx.ix.cls('SearchData'), ctx.ix.cls('SearchDataDualQueue')
    leftF, rightF = K.link_fields(ctx)
    listF = K.trials_list_field(ctx, sd)
    base = K.check_insert(ctx, rid, sd.methods['InsertDataItem'], leftF, rightF, listF, cls=sd)
    dual_ins = dual.lookup('InsertDataItem')
    if dual_ins is not None:
        # the dual-queue container either overrides the insertion or inherits it with overridden hooks
        ov = K.check_insert(ctx, rid, dual_ins, leftF, rightF, listF, cls=dual)
        gq, lq = queue_fields(ctx)
        for hinted in (True, False):
            b = [s for s in base['paths'] if s['hinted'] == hinted]
            o = [s for s in ov['paths'] if s['hinted'] == hinted]
            if not b or not o:
                continue
            bq = sorted(x for x in b[0]['queue'] if x[0] == gq)
            oq = sorted(x for x in o[0]['queue'] if x[0] == gq)
            ctx.check(bq == oq, rid, 'SearchDataDualQueue.InsertDataItem', dual_ins.loc(),
                      f'override queues the same global entries as the base ({"hint" if hinted else "lookup"} path)',
                      f'the dual-queue override queues {oq} into the global queue where the base queues {bq}',
                      key=f'{rid}::sibling::global::{hinted}')
            ol = sorted((x[1].replace('localR', 'globalR'), x[2]) for x in o[0]['queue'] if x[0] == lq)
            ctx.check(ol == sorted((x[1], x[2]) for x in bq), rid, 'SearchDataDualQueue.InsertDataItem',
                      dual_ins.loc(),
                      'override queues the same items into the local queue, keyed by localR',
                      f'the local queue receives {[x for x in o[0]["queue"] if x[0] == lq]}; expected the same items '
                      f'as the global queue keyed by localR', key=f'{rid}::sibling::local::{hinted}')
    K.check_insert_first(ctx, rid, sd.methods['InsertFirstDataItem'], leftF, rightF, listF)


def r19_2(ctx: Ctx):
    rid = 'R19.2'
    ctx.rule(rid, 'covering lookup: the returned item satisfies item.x > x (strict) and its scan predecessor was '
                  'rejected with not(item.x > x); None only when no visited item satisfied the test')
    sd = ctx.ix.cls('SearchData')
    f = sd.lookup('FindDataItemByOneDimensionalPoint')
    ex = ctx.explorer(unroll=2)
    item_cls = ctx.ix.cls('SearchDataItem')
    gx = item_cls.lookup('GetX')
    leftF, rightF = K.link_fields(ctx)
    x = var(f.param_names[1])
    X = lambda it: C.getter_value(ex, gx, it)
    selfk = key_of(var(f.param_names[0]))
    first_field = _first_field(ctx)
    first_atom = ('attr', selfk, first_field)
    n = 0
    # the operation the property speaks of is lookup(x): optional extra parameters keep their defaults
    dflt = {}
    for pn, d in f.defaults().items():
        if pn in f.param_names[2:] and isinstance(d, ast.Constant):
            dflt[pn] = ex.const(d.value)
    for p in C.normal_paths(ex.explore(f, args=dflt or None)):
        n += 1
        guards = C.lits_mod_ver(p.guards)

        def chain() -> list:
            """Items visited by an explicit walk first, first.right, ... (each known to be not None)."""
            out, cur = [], first_atom
            for _ in range(6):
                if C.has_lit(guards, Lit('isnone', key=cur, pol=False)):
                    out.append(C.rf_from_key(cur))
                    cur = ('attr', cur, rightF)
                else:
                    break
            return out

        def accepted(it) -> bool:
            return C.has_lit(guards, C.lits_mod_ver([Lit.cmp('>', X(it), x)])[0])

        def rejected(it) -> bool:
            return C.has_lit(guards, C.lits_mod_ver([Lit.cmp('>', X(it), x).negate()])[0])
        iters = [e for e in p.events if e.kind == 'iter' and e.depth == 0 and e.d.get('var') is not None]
        v = p.value
        if key_of(v) == NONE:
            visited = [it.d['var'] for it in iters] or chain()
            ok = all(rejected(it) for it in visited)
            # any item accepted on the path contradicts returning None
            acc = [l for l in guards if l.kind == 'cmp' and l.op == '<' and any(
                isinstance(a, tuple) and a and a[0] == 'attr' for a in l.rf.atoms())]
            ctx.check(ok, rid, f.short, f.loc(), 'None is returned only after every visited item failed item.x > x',
                      'the lookup gives up (returns None) without testing every visited item with item.x > x',
                      key=f'{rid}::{f.short}::exhausted')
            continue
        ok1 = isinstance(v, RF) and accepted(v)
        ctx.check(ok1, rid, f.short, f.loc(), 'the returned item satisfies item.x > x (strict)',
                  f'the lookup returns {C.fmt(v)} without the strict guard item.x > x on the path (guards '
                  f'{[repr(l) for l in p.guards][:6]}): for a query equal to a stored coordinate the wrong interval '
                  f'is returned', key=f'{rid}::{f.short}::strict')
        # the scan predecessor of the returned item was rejected (first match)
        pred_ok = False
        vk = key_of(v)
        vis = [key_of(it.d['var']) for it in iters]
        if vk in vis:
            i = vis.index(vk)
            pred_ok = i == 0 and _starts_at_first(f) or (i > 0 and rejected(iters[i - 1].d['var']))
            if i == 0 and not _starts_at_first(f):
                pred_ok = False
        if not pred_ok and isinstance(v, RF):
            # structural scan predecessor: the first item has none; X.right was reached from X
            va = C.strip_versions(v.single_atom()) if v.single_atom() is not None else None
            if va == first_atom:
                pred_ok = True
            elif isinstance(va, tuple) and len(va) == 3 and va[0] == 'attr' and va[2] == rightF:
                pred_ok = rejected(C.rf_from_key(va[1]))
        if not pred_ok and isinstance(v, RF):
            left = atomv(('attr', vk, leftF, 0))
            none_left = C.has_lit(guards, C.lits_mod_ver([Lit('isnone', key=key_of(left), pol=True)])[0])
            pred_ok = none_left or rejected(left)
        ctx.check(pred_ok, rid, f.short, f.loc(), 'the item before the returned one was rejected: first match',
                  f'the lookup returns {C.fmt(v)} although the item before it was not rejected with not(item.x > x): '
                  f'not the first item to the right of the query', key=f'{rid}::{f.short}::first-match',
                  detail={'guards': [repr(l) for l in p.guards]})
    ctx.floor(rid, 'paths of the covering lookup', n, 3)


def _first_field(ctx: Ctx) -> str:
    """Attribute of the container that InsertFirstDataItem binds to the left end."""
    sd = ctx.ix.cls('SearchData')
    insf = sd.methods['InsertFirstDataItem']
    for p in C.normal_paths(ctx.explorer().explore(insf)):
        selfk = key_of(var(insf.param_names[0]))
        lk = key_of(var(insf.param_names[1]))
        for (bk, fld), v in p.state.heap.items():
            if bk == selfk and key_of(v) == lk:
                return fld
    raise AnalysisError('first-item field not identified')


def _starts_at_first(f: FuncInfo) -> bool:
    """A for loop over the container itself starts at the first item (iterator protocol: R19.4)."""
    fors = [nn for nn in ast.walk(f.node) if isinstance(nn, (ast.For, ast.comprehension))]
    return any(isinstance(nn.iter, ast.Name) and nn.iter.id == f.param_names[0] for nn in fors)


def r19_4(ctx: Ctx):
    rid = 'R19.4'
    ctx.rule(rid, 'iterator protocol: __iter__ starts at the first item, __next__ yields the cursor and advances '
                  'via GetRight, StopIteration at None')
    sd = ctx.ix.cls('SearchData')
    leftF, rightF = K.link_fields(ctx)
    ex = ctx.explorer()
    insf = sd.methods['InsertFirstDataItem']
    first_field = None
    for p in C.normal_paths(ex.explore(insf)):
        selfk = key_of(var(insf.param_names[0]))
        lk = key_of(var(insf.param_names[1]))
        for (bk, fld), v in p.state.heap.items():
            if bk == selfk and key_of(v) == lk:
                first_field = fld
    if first_field is None:
        raise AnalysisError('first-item field not identified')
    it, nx = sd.lookup('__iter__'), sd.lookup('__next__')
    cursor = None
    n = 0
    for p in ex.explore(it):
        selfv = var(it.param_names[0])
        if p.outcome == 'raise':
            # a non-empty container must be iterable: raising is allowed only when the first item is None
            first_none = Lit('isnone', key=key_of(attr(selfv, first_field)), pol=True)
            ctx.check(C.has_lit(C.lits_mod_ver(p.guards), C.lits_mod_ver([first_none])[0]), rid, it.short, it.loc(),
                      '__iter__ raises only for an empty container',
                      '__iter__ raises although the container has a first item: a non-empty container cannot be '
                      'iterated', key=f'{rid}::iter-raises-nonempty')
            continue
        n += 1
        ok = key_of(p.value) == key_of(selfv)
        ctx.check(ok, rid, it.short, it.loc(), '__iter__ returns the container', '__iter__ does not return self',
                  key=f'{rid}::iter-returns-self')
        cs = [(fld, v) for (bk, fld), v in p.state.heap.items() if bk == key_of(selfv)]
        ok = len(cs) == 1 and key_of(cs[0][1]) == key_of(attr(selfv, first_field))
        ctx.check(ok, rid, it.short, it.loc(), 'the cursor starts at the first item',
                  'the iteration cursor does not start at the first item of the container',
                  key=f'{rid}::iter-starts-first')
        if cs:
            cursor = cs[0][0]
    ctx.floor(rid, 'normal paths of __iter__', n, 1)
    n = 0
    for p in ex.explore(nx):
        selfv = var(nx.param_names[0])
        cur0 = attr(selfv, cursor)
        isnone = C.has_lit(p.guards, Lit('isnone', key=key_of(cur0), pol=True))
        n += 1
        if isnone:
            ok = p.outcome == 'raise' and p.exc is not None and p.exc.type == 'StopIteration'
            ctx.check(ok, rid, nx.short, nx.loc(), 'StopIteration when the cursor is None',
                      '__next__ does not raise StopIteration at the end of the list', key=f'{rid}::next-stop')
            continue
        ok = p.outcome == 'return' and key_of(p.value) == key_of(cur0)
        ctx.check(ok, rid, nx.short, nx.loc(), '__next__ yields the item under the cursor',
                  f'__next__ yields {C.fmt(p.value)}, not the item under the cursor', key=f'{rid}::next-yields')
        adv = p.state.heap.get((key_of(selfv), cursor))
        ok2 = adv is not None and key_of(adv) == key_of(attr(cur0, rightF))
        ctx.check(ok2, rid, nx.short, nx.loc(), 'the cursor advances to the right neighbour',
                  '__next__ does not advance the cursor to the right neighbour', key=f'{rid}::next-advances')
    ctx.floor(rid, 'paths of __next__', n, 2)


def r19_5_7(ctx: Ctx):
    rid = 'R19.5'
    ctx.rule(rid, 'queue wiring: every Insert(X.k, X) passes the same X twice with k = globalR for the global and '
                  'localR for the local queue; GetBestItem pops the max end')
    ctx.rule('R19.7', 'RefillQueue clears, then inserts every item with its current key(s)')
    gq, lq = queue_fields(ctx)
    sd, dual = ctx.ix.cls('SearchData'), ctx.ix.cls('SearchDataDualQueue')
    # the source of a refill is the whole container: a generator helper that yields under a condition is a filtered
    # view of it (decided on the syntax tree first; generators are outside the path explorer)
    for cls in (sd, dual):
        m = cls.lookup('RefillQueue')
        if m is None:
            continue
        for nd in ast.walk(m.node):
            if isinstance(nd, ast.For) and isinstance(nd.iter, ast.Call):
                for g in ctx.pta.internal_callees(m, nd.iter):
                    if not any(isinstance(y, (ast.Yield, ast.YieldFrom)) for y in ast.walk(g.node)):
                        continue
                    for cond in ast.walk(g.node):
                        if isinstance(cond, ast.If) and \
                                any(isinstance(y, (ast.Yield, ast.YieldFrom, ast.Continue, ast.Break, ast.Return))
                                    for b in cond.body + cond.orelse for y in ast.walk(b)):
                            ctx.fail('R19.7', m.short, g.loc(cond),
                                     f'{m.short} refills the queue from {g.short}, which yields an item only when '
                                     f'`{ast.unparse(cond.test)[:50]}`: items for which the condition fails are never '
                                     f'queued again after a refill, although their characteristic may be the maximal one',
                                     key=f'R19.7::{m.short}::filtered-source::{g.name}')
    q = ctx.ix.cls('CharacteristicsQueue')
    want_key = {gq: 'globalR', lq: 'localR'}
    n = 0
    for cls in (sd, dual):
        # the operation as it runs on a receiver of this class (own, inherited, or through overridden hooks)
        ex = ctx.explorer(unroll=2, self_cls=cls)
        for nm in ('InsertDataItem', 'RefillQueue'):
            m = cls.lookup(nm)
            if m is None:
                continue
            for p in C.normal_paths(ex.explore(m)):
                for e in p.events:
                    if e.kind == 'call' and e.d['name'] == 'Insert' and isinstance(e.d.get('recv'), RF):
                        a = e.d['recv'].single_atom()
                        if not (isinstance(a, tuple) and a[0] == 'attr' and a[2] in want_key):
                            continue
                        n += 1
                        args = e.d['args']
                        ok = len(args) >= 2 and isinstance(args[0], RF) and \
                            key_of(args[0]) == key_of(attr(args[1], want_key[a[2]]))
                        ctx.check(ok, rid, m.short, m.loc(e.node),
                                  f'{a[2]}.Insert(X.{want_key[a[2]]}, X)',
                                  f'{a[2]}.Insert is called with ({C.fmt(args[0])}, {C.fmt(args[1])}); expected '
                                  f'(X.{want_key[a[2]]}, X) for the same X', key=ctx.key_for(rid, m, e.node))
    ctx.floor(rid, 'queue insertions in InsertDataItem/RefillQueue', n, 8)
    # wrapper -> DEPQ
    sig = depq_signature()
    ctx.check(sig.get('insert', ([], ''))[0][:3] == ['self', 'item', 'priority'], rid, 'depq.DEPQ.insert',
              'site-packages/depq', 'library signature insert(item, priority)', 'unexpected DEPQ.insert signature',
              key=f'{rid}::depq-signature')
    insf = q.lookup('Insert')
    for p in C.normal_paths(ctx.explorer().explore(insf)):
        stores_ = [ev for ev in p.events if ev.kind == 'call' and ev.d.get('ext') and
                   ev.d['name'] in ('insert', 'addfirst', 'addlast')]
        if not stores_:
            # a path that drops the entry: only sound when the decision is taken against the queue's *current*
            # lowest priority, read from the queue in this very call
            keyv = var(insf.param_names[1])
            lows = [ev for ev in p.events if ev.kind == 'call' and ev.d.get('ext') and ev.d['name'] in ('low',)]
            fresh = any(l.kind == 'cmp' and C.mentions(l.rf, key_of(keyv)) and
                        any(C.mentions(l.rf, key_of(lo.d['result'])) for lo in lows) for l in p.guards)
            ctx.check(fresh, rid, insf.short, insf.loc(),
                      'an entry is skipped only against the queue\'s current lowest priority',
                      f'a path of {insf.short} returns without inserting the entry (guards: '
                      f'{[repr(g) for g in p.guards][:3]}) and the decision is not taken against the current lowest '
                      f'priority of the queue: a bounded queue then fails to retain the highest-priority entries',
                      key=f'{rid}::{insf.short}::entry-dropped')
        for ev in p.events:
            if ev.kind == 'call' and ev.d.get('ext') and ev.d['name'] in ('insert', 'addfirst', 'addlast'):
                a, kw = ev.d['args'], ev.d['kwargs']
                itemv = a[0] if a else kw.get('item')
                pr = a[1] if len(a) > 1 else kw.get('priority')
                ok = ev.d['name'] == 'insert' and itemv is not None and pr is not None and \
                    key_of(itemv) == key_of(var(insf.param_names[2])) and key_of(pr) == key_of(var(insf.param_names[1]))
                ctx.check(ok, rid, insf.short, insf.loc(ev.node), 'Insert(key, item) -> DEPQ.insert(item, key)',
                          'Insert(key, item) does not reach DEPQ.insert(item, key)', key=ctx.key_for(rid, insf, ev.node))
    gb = q.lookup('GetBestItem')
    for p in C.normal_paths(ctx.explorer().explore(gb)):
        ce = C.pop_event_of(p, p.value)
        ctx.check(ce is not None and ce.d['name'] == 'popfirst', rid, gb.short, gb.loc(),
                  'GetBestItem = DEPQ.popfirst() (highest priority)',
                  'GetBestItem does not return DEPQ.popfirst() (the highest-priority entry)',
                  key=f'{rid}::{gb.short}::popfirst')
    # R19.7
    rid7 = 'R19.7'
    n7 = 0
    for cls, queues in ((sd, [gq]), (dual, [gq, lq])):
        m = cls.lookup('RefillQueue')
        if m is None:
            continue
        exq = ctx.explorer(unroll=2, inline=lambda f, st: f.name == 'ClearQueue', self_cls=cls)
        for p in C.normal_paths(exq.explore(m)):
            n7 += 1
            evs = p.events
            clears = {}
            for i, e in enumerate(evs):
                if e.kind == 'call' and e.d['name'] == 'Clear' and isinstance(e.d.get('recv'), RF):
                    a = e.d['recv'].single_atom()
                    if isinstance(a, tuple) and a[0] == 'attr':
                        clears.setdefault(a[2], i)
            inserts = [(i, e) for i, e in enumerate(evs) if e.kind == 'call' and e.d['name'] == 'Insert']
            first_ins = min((i for i, _ in inserts), default=len(evs))
            ok = all(qn in clears and clears[qn] < first_ins for qn in queues)
            ctx.check(ok, rid7, m.short, m.loc(), 'every queue is cleared before it is refilled',
                      f'RefillQueue does not clear {queues} before re-inserting: stale duplicates stay queued',
                      key=f'{rid7}::{m.short}::clear-first')
            iters = [(i, e) for i, e in enumerate(evs) if e.kind == 'iter' and e.depth == 0]
            good = True
            for j, (i, it) in enumerate(iters):
                end = iters[j + 1][0] if j + 1 < len(iters) else len(evs)
                got = set()
                for k, e in inserts:
                    if i < k < end and len(e.d['args']) >= 2 and key_of(e.d['args'][1]) == key_of(it.d['var']):
                        a = e.d['recv'].single_atom() if isinstance(e.d.get('recv'), RF) else None
                        if isinstance(a, tuple):
                            got.add(a[2])
                if got != set(queues):
                    good = False
            ctx.check(good, rid7, m.short, m.loc(), 'every visited item is inserted into every queue',
                      'RefillQueue skips items or queues', key=f'{rid7}::{m.short}::complete')
            fors = [nn for nn in ast.walk(m.node) if isinstance(nn, ast.For)]
            whole = any(isinstance(nn.iter, ast.Name) and nn.iter.id == m.param_names[0] and
                        not any(isinstance(x, (ast.Break, ast.Continue)) for b in nn.body for x in ast.walk(b))
                        for nn in fors)
            ctx.check(whole, rid7, m.short, m.loc(), 'the refill loop ranges over the whole container',
                      'the refill loop does not range over the whole container', key=f'{rid7}::{m.short}::whole')
    ctx.floor(rid7, 'paths of the RefillQueue implementations', n7, 4)


def r19_6(ctx: Ctx):
    rid = 'R19.6'
    ctx.rule(rid, 'dual-queue request: pop until the queued key equals the item\'s current characteristic, '
                  'refilling when empty; return the item')
    dual = ctx.ix.cls('SearchDataDualQueue')
    gq, lq = queue_fields(ctx)
    ex = ctx.explorer(unroll=2)
    n = 0
    for nm, kf, qf in (('GetDataItemWithMaxGlobalR', 'globalR', gq), ('GetDataItemWithMaxLocalR', 'localR', lq)):
        m = dual.lookup(nm)
        for p in C.normal_paths(ex.explore(m)):
            n += 1
            pops = [e for e in p.events if e.kind == 'call' and e.d['name'] == 'GetBestItem']
            if not ctx.check(bool(pops), rid, m.short, m.loc(), 'the request pops the queue',
                             'the request returns without popping the queue', key=f'{rid}::{m.short}::pops'):
                continue
            ok_q = all(isinstance(e.d.get('recv'), RF) and isinstance(e.d['recv'].single_atom(), tuple) and
                       e.d['recv'].single_atom()[2] == qf for e in pops)
            ctx.check(ok_q, rid, m.short, m.loc(), f'only the {kf} queue is popped',
                      f'{nm} pops a queue other than its own', key=f'{rid}::{m.short}::own-queue')
            last = C.result_of(p, pops[-1])
            if last is None:
                raise AnalysisError(f'{m.short}: result of GetBestItem not found on a path')
            sv = C.strip_versions
            item0 = atomv(('sub', key_of(last), RF.const(0).key(), 0))
            key1 = atomv(('sub', key_of(last), RF.const(1).key(), 0))
            ok = C.same_mod_ver(p.value, item0)
            ctx.check(ok, rid, m.short, m.loc(), 'the item of the last popped entry is returned',
                      f'the request returns {C.fmt(p.value)}, not the item of the last popped entry',
                      key=f'{rid}::{m.short}::returns-item')
            glits = C.lits_mod_ver(p.guards)
            cur = C.lits_mod_ver([Lit.cmp('==', key1, attr(item0, kf))])[0]
            ok2 = C.has_lit(glits, cur)
            ctx.check(ok2, rid, m.short, m.loc(), 'the returned entry\'s key equals the item\'s current characteristic',
                      'an entry can be returned although its queued key differs from the item\'s current '
                      'characteristic (stale entry)', key=f'{rid}::{m.short}::current',
                      detail={'guards': [repr(l) for l in p.guards]})
            # earlier pops were stale
            stale_ok = True
            for e in pops[:-1]:
                r = C.result_of(p, e)
                i0 = atomv(('sub', key_of(r), RF.const(0).key(), 0))
                k1 = atomv(('sub', key_of(r), RF.const(1).key(), 0))
                if not C.has_lit(glits, C.lits_mod_ver([Lit.cmp('!=', k1, attr(i0, kf))])[0]):
                    stale_ok = False
            ctx.check(stale_ok, rid, m.short, m.loc(), 'entries are discarded only when stale',
                      'a current entry is discarded by the request loop', key=f'{rid}::{m.short}::discard-stale')
            # emptiness test before every pop
            evs = p.events
            okp = True
            for e in pops:
                i = evs.index(e)
                prev_pop = max([evs.index(x) for x in pops if evs.index(x) < i], default=-1)
                if not any(x.kind == 'call' and x.d['name'] == 'IsEmpty' for x in evs[prev_pop + 1:i]):
                    okp = False
            ctx.check(okp, rid, m.short, m.loc(), 'emptiness is tested (and the queue refilled) before every pop',
                      'the queue is popped without the refill-if-empty test', key=f'{rid}::{m.short}::empty-test')
            _check_refill_when_empty(ctx, rid, m, p, pops)
    ctx.floor(rid, 'paths of the dual-queue requests', n, 4)
    # the request of the base container: same refill-if-empty discipline (a bounded queue can run empty while the
    # container still holds intervals)
    base = ctx.ix.cls('SearchData')
    mb = base.lookup('GetDataItemWithMaxGlobalR')
    nb = 0
    if mb is not None:
        for p in C.normal_paths(ex.explore(mb)):
            pops = [e for e in p.events if e.kind == 'call' and e.d['name'] == 'GetBestItem']
            if pops:
                nb += 1
                _check_refill_when_empty(ctx, rid, mb, p, pops)
    ctx.floor(rid, 'popping paths of the base request', nb, 2)


def _check_refill_when_empty(ctx: Ctx, rid: str, m, p, pops):
    """On a path where the emptiness test in front of a pop came out true, the queue is refilled before the pop."""
    evs = p.events
    ok = True
    for e in pops:
        i = evs.index(e)
        prev_pop = max([evs.index(x) for x in pops if evs.index(x) < i], default=-1)
        for x in evs[prev_pop + 1:i]:
            if x.kind == 'call' and x.d['name'] == 'IsEmpty' and C.result_of(p, x) is not None:
                empty = Lit('truth', key=key_of(C.result_of(p, x)), pol=True)
                if C.has_lit(p.guards, empty):
                    j = evs.index(x)
                    if not any(y.kind == 'call' and y.d['name'] == 'RefillQueue' for y in evs[j + 1:i]):
                        ok = False
    ctx.check(ok, rid, m.short, m.loc(), 'an empty queue is refilled before it is popped',
              f'{m.short} pops the queue on a path where it was found empty without refilling it first: a bounded queue '
              f'that has run empty raises instead of returning the best of the remaining intervals',
              key=f'{rid}::{m.short}::refill-when-empty')


def r19_9(ctx: Ctx):
    """The queue wrapper forwards each operation to the matching operation of the double-ended queue."""
    rid = 'R19.9'
    ctx.rule(rid, 'wrapper completeness: Clear forwards to clear(), IsEmpty returns is_empty() of the wrapped queue')
    q = ctx.ix.cls('CharacteristicsQueue')
    ex = ctx.explorer()
    n = 0
    for mname, ext, returns in (('Clear', 'clear', False), ('IsEmpty', 'is_empty', True)):
        m = q.lookup(mname)
        if m is None:
            ctx.fail(rid, f'CharacteristicsQueue.{mname}', q.module.relpath, f'{mname} is missing',
                     key=f'{rid}::{mname}::missing')
            continue
        for p in C.normal_paths(ex.explore(m)):
            n += 1
            calls = [e for e in p.events if e.kind == 'call' and e.d['name'] == ext and e.d.get('ext')]
            ok = len(calls) == 1
            if ok and returns:
                ok = p.value is not None and key_of(p.value) == key_of(calls[0].d['result'])
            ctx.check(ok, rid, m.short, m.loc(), f'{mname} forwards to {ext}()',
                      f'{m.short} does not forward to {ext}() of the wrapped queue' +
                      (' and return its answer' if returns else '') +
                      ': the container clears / tests nothing', key=f'{rid}::{m.short}::forwards')
    ctx.floor(rid, 'paths of the forwarding operations of the queue wrapper', n, 2)


def r19_8(ctx: Ctx):
    rid = 'R19.8'
    ctx.rule(rid, 'maxlen reaches DEPQ(maxlen=...) through SearchData and CharacteristicsQueue')
    q = ctx.ix.cls('CharacteristicsQueue')
    init = q.lookup('__init__')
    ok = False
    for p in C.normal_paths(ctx.explorer().explore(init)):
        for e in p.events:
            if e.kind == 'call' and e.d.get('ext') and e.d['name'] == 'DEPQ':
                ml = e.d['kwargs'].get('maxlen', e.d['args'][1] if len(e.d['args']) > 1 else None)
                ok = ml is not None and key_of(ml) == key_of(var('maxlen'))
    ctx.check(ok, rid, init.short, init.loc(), 'CharacteristicsQueue passes maxlen to DEPQ',
              'CharacteristicsQueue does not pass its maxlen to DEPQ: a bounded queue is not bounded',
              key=f'{rid}::{init.short}::maxlen')
    for cname in ('SearchData', 'SearchDataDualQueue'):
        c = ctx.ix.cls(cname)
        i2 = c.methods.get('__init__')
        if i2 is None:
            continue
        okc = False
        nq = 0
        for p in C.normal_paths(ctx.explorer(inline_ctor=False).explore(i2)):
            for ne in C.new_events(p, 'CharacteristicsQueue'):
                nq += 1
                a = ne.d['args']
                ml = a[0] if a else ne.d['kwargs'].get('maxlen')
                okc = ml is not None and key_of(ml) == key_of(var('maxlen'))
                ctx.check(okc, rid, i2.short, i2.loc(ne.node), f'{cname} passes maxlen to its queue',
                          f'{cname} does not pass maxlen to its queue', key=ctx.key_for(rid, i2, ne.node))
        if nq == 0:
            ctx.fail(rid, i2.short, i2.loc(), f'{cname}.__init__ builds no CharacteristicsQueue',
                     key=f'{rid}::{i2.short}::no-queue')


def r19_10(ctx: Ctx):
    """Sibling agreement of the constructors: a container derived from SearchData hands its own constructor
    arguments to the base constructor under the same names (the queue bound as the queue bound, the problem as the
    problem) - otherwise the derived container's bounded queue is not bounded by what the caller asked for."""
    rid = 'R19.10'
    ctx.rule(rid, 'a subclass of SearchData forwards each of its constructor parameters to the base-class parameter of '
                  'the same name')
    base = ctx.ix.cls('SearchData')
    binit = base.lookup('__init__')
    n = 0
    for c in base.all_subclasses():
        init = c.methods.get('__init__')
        if init is None or binit is None:
            continue
        bps = binit.param_names[1:]
        for nd in ast.walk(init.node):
            if not (isinstance(nd, ast.Call) and isinstance(nd.func, ast.Attribute) and nd.func.attr == '__init__'):
                continue
            sup = isinstance(nd.func.value, ast.Call) and isinstance(nd.func.value.func, ast.Name) and \
                nd.func.value.func.id == 'super'
            args = nd.args if sup else nd.args[1:]
            if not sup and not (isinstance(nd.func.value, ast.Name) and nd.func.value.id == base.name):
                continue
            n += 1
            bound = list(zip(bps, args)) + [(k.arg, k.value) for k in nd.keywords if k.arg]
            for bp, a in bound:
                if isinstance(a, ast.Name) and a.id in init.param_names and a.id in bps and a.id != bp:
                    ctx.fail(rid, init.short, init.loc(nd),
                             f'{init.short} passes its parameter {a.id} to the base constructor as {bp}: the derived '
                             f'container is built with its arguments exchanged (the bound of its characteristic queue '
                             f'is not the requested one)', key=f'{rid}::{init.short}::{a.id}->{bp}')
    if not any(x.rule == rid for x in ctx.findings):
        ctx.ok(rid, 'SearchData subclasses', f'{n} base-constructor calls: parameters forwarded under their own names',
               base.module.relpath)
    ctx.floor(rid, 'base-constructor calls in the subclasses of SearchData', n, 1)


def check(ctx: Ctx):
    if C.want(ctx, 'R19.10'):
        r19_10(ctx)
    for rid, fn in (('R19.1', r19_1), ('R19.2', r19_2), ('R19.4', r19_4), ('R19.5', r19_5_7), ('R19.6', r19_6),
                    ('R19.8', r19_8), ('R19.9', r19_9)):
        if C.want(ctx, rid) or (rid == 'R19.5' and C.want(ctx, 'R19.7')) or (rid == 'R19.1' and C.want(ctx, 'R19.3')):
            fn(ctx)
    ctx.rule('R19.3', 'append-once and GetCount = len(list of all trials) (decided inside R19.1)')
    ctx.assume('depq.DEPQ orders by priority and evicts the lowest-priority entry when maxlen is reached')
